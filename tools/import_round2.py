#!/usr/bin/env python3
"""Copies the confirmed round-2 seeded changes (/tmp/seeds2/<prop>/<k>) into /verif/seeded/<prop>-r2-<k>/.

A seed is imported only when its verify.json (written by tools/verify_seed.sh) shows: demo passes on the
clean tree, demo fails with the patch, pinned suite passes with the patch.
"""
import glob
import json
import os
import re
import shutil
import subprocess
import sys

VERIF = os.path.dirname(os.path.dirname(os.path.abspath(__file__)))
ROUND = sys.argv[2] if len(sys.argv) > 2 else "2"
FIRST = json.load(open(os.path.join(VERIF, "tools", f"seed_first_run_r{ROUND}.json")))


def _needs_from_notes(notes):
    """The paragraph / bullet block under the 'needed to manifest' heading (or the sentence itself)."""
    ls = notes.splitlines()
    for i, l in enumerate(ls):
        if re.search(r"needed to manifest|needs to manifest|what is needed|needed to trigger", l, re.I):
            if l.lstrip().startswith("#") or l.rstrip().endswith(":") or l.rstrip().endswith(":**"):
                out = []
                for l2 in ls[i + 1:]:
                    if l2.lstrip().startswith("#"):
                        break
                    if l2.strip():
                        out.append(l2.strip())
                    elif out and len(" ".join(out)) > 200:
                        break
                return " ".join(out)
            return re.sub(r"^[-*\s]+", "", l).replace("**", "")
    return None


def main():
    root = sys.argv[1] if len(sys.argv) > 1 else "/tmp/seeds2"
    head = subprocess.run(["git", "-C", "/repo", "rev-parse", "--short", "HEAD"], capture_output=True, text=True).stdout.strip()
    for src in sorted(glob.glob(os.path.join(root, "C??", "[0-9]"))):
        prop, k = src.split("/")[-2:]
        name = f"{prop}-r{ROUND}-{k}"
        vp = os.path.join(src, "verify.json")
        if not os.path.exists(vp):
            print(name, "not verified yet: skipped")
            continue
        v = json.load(open(vp))
        if not (v["demo_clean_rc"] == 0 and v["demo_patched_rc"] != 0 and v["suite_rc"] == 0):
            print(name, "NOT CONFIRMED:", v)
            continue
        dst = os.path.join(VERIF, "seeded", name)
        os.makedirs(dst, exist_ok=True)
        for f in ("patch.diff", "demo.py", "notes.md"):
            if os.path.exists(os.path.join(src, f)):
                shutil.copy(os.path.join(src, f), os.path.join(dst, f))
        notes = open(os.path.join(src, "notes.md")).read() if os.path.exists(os.path.join(src, "notes.md")) else ""
        lines = [l.strip() for l in notes.splitlines() if l.strip()]
        title = re.sub(r"^#+\s*", "", lines[0]) if lines else ""
        title = re.sub(r"^C\d\d\s*/?\s*seed\s*\d\s*[-–]+\s*", "", title)
        needs = _needs_from_notes(notes) or next((l.lstrip("-* ").strip() for l in lines[1:] if re.search(r"needs|manifest", l, re.I)), "")
        meta = {
            "property": prop,
            "round": int(ROUND),
            "origin": "independent sub-agent given only the property text and a scratch worktree of /repo (nothing from /verif)",
            "what": title,
            "needs_to_manifest": needs[:600] or title,
            "files_touched": sorted({l[6:].strip() for l in open(os.path.join(src, "patch.diff")) if l.startswith("+++ b/")}),
            "confirmed_by_me": {
                "how": "tools/verify_seed.sh in a scratch worktree of /repo (removed afterwards): demo on the clean tree, demo with the patch, pinned suite with the patch (pytest-xdist)",
                "demo_clean_exit": v["demo_clean_rc"],
                "demo_patched_exit": v["demo_patched_rc"],
                "suite_with_patch": v["suite_summary"],
            },
            "checks_run": "tools/seedeval.py: git -C /repo apply patch.diff; python3 -m acsa check <every property> --tier quick; git -C /repo checkout -- .",
            "repo_commit_when_evaluated": head,
            "checks_that_fired": {},
            "first_run": FIRST.get(name, ""),
            "agent_notes": notes[:1500],
        }
        json.dump(meta, open(os.path.join(dst, "meta.json"), "w"), indent=1)
        print(name, "imported")


if __name__ == "__main__":
    main()
