"""BinaryCarver.fit on a sample with an all-missing quantitative column (C08: completes or AssertionError)."""
import warnings
warnings.filterwarnings("ignore")
import numpy as np, pandas as pd
from AutoCarver import BinaryCarver
rng = np.random.default_rng(0)
n = 600
X = pd.DataFrame({"a": rng.normal(size=n), "allnan": np.nan})
y = pd.Series((X["a"] + rng.normal(size=n) > 0).astype(int))
for dropna in (True, False):
    try:
        c = BinaryCarver(min_freq=0.1, quantitative_features=["a", "allnan"], sort_by="tschuprowt", max_n_mod=4, dropna=dropna, verbose=False, copy=True)
        c.fit(X, y)
        print("dropna", dropna, "fit OK, kept:", sorted(c.features))
    except AssertionError as e:
        print("dropna", dropna, "AssertionError", str(e)[:80])
    except Exception as e:
        print("dropna", dropna, "FAIL", type(e).__name__, str(e)[:120])
