"""D26: X=None is a non-DataFrame X; C19 wants AssertionError, the pinned tree raised TypeError/AttributeError."""
import sys
import numpy as np
import pandas as pd
from AutoCarver import BinaryCarver, ContinuousCarver, MulticlassCarver
from AutoCarver.discretizers import Discretizer, QuantitativeDiscretizer, QualitativeDiscretizer

rng = np.random.default_rng(0)
n = 400
X = pd.DataFrame({"q": rng.normal(size=n), "c": rng.choice(list("abcd"), size=n)})
yb = pd.Series((X["q"] + rng.normal(size=n) > 0).astype(int))
ym = pd.Series(rng.integers(0, 3, size=n))
yc = pd.Series(X["q"] * 2 + rng.normal(size=n))
bad = 0
cases = [
    ("BinaryCarver", lambda: BinaryCarver(quantitative_features=["q"], qualitative_features=["c"], min_freq=0.1, sort_by="cramerv"), yb),
    ("MulticlassCarver", lambda: MulticlassCarver(quantitative_features=["q"], qualitative_features=["c"], min_freq=0.1, sort_by="cramerv"), ym),
    ("ContinuousCarver", lambda: ContinuousCarver(quantitative_features=["q"], qualitative_features=["c"], min_freq=0.1, sort_by="kruskal"), yc),
    ("Discretizer", lambda: Discretizer(quantitative_features=["q"], qualitative_features=["c"], min_freq=0.1), yb),
    ("QuantitativeDiscretizer", lambda: QuantitativeDiscretizer(quantitative_features=["q"], min_freq=0.1), yb),
    ("QualitativeDiscretizer", lambda: QualitativeDiscretizer(qualitative_features=["c"], min_freq=0.1), yb),
]
for name, make, y in cases:
    obj = make()
    try:
        obj.fit(None, y)
        print(name, "fit(None, y): accepted"); bad += 1
    except AssertionError:
        print(name, "fit(None, y): AssertionError (ok)")
    except Exception as exc:  # noqa
        print(name, "fit(None, y):", type(exc).__name__, str(exc)[:80]); bad += 1
    # still usable, and X_dev stays optional
    obj = make()
    obj.fit(X.copy(), y)
    obj.transform(X.copy())
    try:
        obj.transform(None)
        print(name, "transform(None): accepted"); bad += 1
    except AssertionError:
        print(name, "transform(None): AssertionError (ok)")
    except Exception as exc:  # noqa
        print(name, "transform(None):", type(exc).__name__, str(exc)[:80]); bad += 1
print("FAIL" if bad else "PASS")
sys.exit(1 if bad else 0)
