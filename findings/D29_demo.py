"""ChainedDiscretizer(verbose=True).fit on an integer-coded column: C08/C19 say AssertionError or a coherent fitted object."""
import warnings
warnings.filterwarnings("ignore")
import pandas as pd
from AutoCarver.discretizers import ChainedDiscretizer
from AutoCarver.discretizers.utils.grouped_list import GroupedList

X = pd.DataFrame({"code": [1, 2, 3, 1, 2, 3, 1, 1] * 25})
y = pd.Series([0, 1] * 100)
level0 = GroupedList(["1", "2", "3"])
level1 = GroupedList({"low": ["1", "2"], "high": ["3"]})
for verbose in (False, True):
    try:
        d = ChainedDiscretizer(qualitative_features=["code"], chained_orders=[level1], min_freq=0.3, verbose=verbose, copy=True)
        d.fit(X, y)
        print("verbose", verbose, "fit OK", d.values_orders["code"].content)
    except AssertionError as e:
        print("verbose", verbose, "AssertionError", str(e)[:80])
    except Exception as e:
        print("verbose", verbose, "FAIL", type(e).__name__, str(e)[:100])
