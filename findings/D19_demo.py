"""Demonstration of known finding D19 (property C14) against the real code.

Run:  cd /tmp && PYTHONPATH=/repo /venv/bin/python /verif/findings/D19_demo.py
Expected on the current tree: prints the two returned features and their |Spearman| > thresh_corr,
exit status 1 (the property is violated).  Not part of any registered check (checks are static).
"""
import sys
import warnings

import numpy as np
import pandas as pd

warnings.filterwarnings("ignore")
from AutoCarver.selectors import ClassificationSelector, R_measure, kruskal_measure  # noqa: E402


def data(seed):
    rng = np.random.default_rng(seed)
    n = 400
    y = pd.Series(rng.integers(0, 2, n))
    f1 = pd.Series(rng.normal(size=n) + 0.8 * y)
    # f2: monotone distortion of f1 (same ranks up to small noise) with a heavy tail
    f2 = np.exp(f1) + 0.01 * pd.Series(rng.normal(size=n))
    return pd.DataFrame({"f1": f1, "f2": f2}), y


def main():
    for seed in range(200):
        X, y = data(seed)
        sel = ClassificationSelector(
            n_best=1,
            quantitative_features=["f1", "f2"],
            quantitative_measures=[kruskal_measure, R_measure],
            thresh_corr=0.9,
            thresh_kruskal=1e12,  # keeps the measure pipeline going after kruskal (see make_measure)
        )
        out = sel.select(X, y)
        rho = abs(X.corr("spearman").iloc[0, 1])
        if len(out) == 2 and rho > 0.9:
            print(f"seed={seed}: select() returned {out} although |spearman(f1, f2)| = {rho:.3f} > thresh_corr = 0.9")
            return 1
    print("no violating sample found")
    return 0


if __name__ == "__main__":
    sys.exit(main())
